/-
C16 — Object export / import round-trips and survives JSON.
-/
import Rmk.Proofs.ObjRoundtrip
import Rmk.Proofs.ObjTreeLaws
namespace Rmk.C16
open Rmk Rmk.Obj

/-- importing the exported object yields the original value -/
theorem roundtrip (t : Ty) (v : Val) (hwf : t.wf = true) (hwt : WT t v = true) :
    fromObj t (toObj t v) = some v := ObjRoundtrip.roundtrip t v hwf hwt

/-- …also after the exported object went through a JSON dump and load (tuples become arrays) -/
theorem roundtrip_json (t : Ty) (v : Val) (hwf : t.wf = true) (hwt : WT t v = true) :
    fromObj t (jsonNorm (toObj t v)) = some v := ObjRoundtrip.roundtrip_json t v hwf hwt

/-- the exported object has the documented plain shape -/
theorem shape (t : Ty) (v : Val) (hwf : t.wf = true) (hwt : WT t v = true) :
    ObjRoundtrip.Shape t (toObj t v) := ObjRoundtrip.shape t v hwf hwt

/-- import is insensitive to tuple-vs-array for every object, valid or not -/
theorem import_jsonNorm (t : Ty) (o : Obj) : fromObj t (jsonNorm o) = fromObj t o :=
  ObjRoundtrip.fromObj_jsonNorm t o

/-- THE EXPORT THE LIBRARY COMPUTES — from the tree, through the read-only iterators (`PackedIter`, `NodeIter`, the
    container iterator) and the tree-reading serialiser — is the export of the plain value, on EVERY tree that
    represents the value (fresh, decoded or after any history of mutations); so the round-trip theorems above speak
    about what `to_obj()` really returns. -/
theorem export_from_tree (H : Hash) (t : Ty) (v : Val) (n : Node) (hwf : t.wf = true)
    (hlim : ReprBasics.limitsOk t = true) (h : Impl.Repr H t v n) :
    Impl.toObjTree H t n = some (toObj t v) := ObjTreeLaws.toObjTree_repr H t v n hwf hlim h

/-- in particular for every freshly constructed valid value, and importing that export gives the value back -/
theorem export_import_constructed (H : Hash) (t : Ty) (v : Val) (hwf : t.wf = true)
    (hlim : ReprBasics.limitsOk t = true) (hwt : WT t v = true) :
    ∃ n o, Impl.construct H t v = some n ∧ Impl.toObjTree H t n = some o ∧ fromObj t o = some v ∧
      fromObj t (jsonNorm o) = some v := by
  obtain ⟨n, hn, ho⟩ := ObjTreeLaws.toObjTree_construct H t v hwf hlim hwt
  exact ⟨n, _, hn, ho, roundtrip t v hwf hwt, roundtrip_json t v hwf hwt⟩

/-- two trees that represent the same value export identically (the export does not depend on the history) -/
theorem export_history_independent (H : Hash) (t : Ty) (v : Val) (n n' : Node) (hwf : t.wf = true)
    (hlim : ReprBasics.limitsOk t = true) (h : Impl.Repr H t v n) (h' : Impl.Repr H t v n') :
    Impl.toObjTree H t n = Impl.toObjTree H t n' := ObjTreeLaws.toObjTree_unique H t v n n' hwf hlim h h'

/-! Non-vacuity -/
example (H : Hash) : Impl.toObjTree H (.uint 1) (.leaf (chunkOfLE 1 5)) = some (.num 5) :=
  export_from_tree H (.uint 1) (.num 5) _ rfl rfl (by simp [Impl.Repr])

end Rmk.C16
