/-
C16 — Object export / import round-trips and survives JSON.
-/
import Rmk.Proofs.ObjRoundtrip
namespace Rmk.C16
open Rmk Rmk.Obj

/-- importing the exported object yields the original value -/
theorem roundtrip (t : Ty) (v : Val) (hwf : t.wf = true) (hwt : WT t v = true) :
    fromObj t (toObj t v) = some v := ObjRoundtrip.roundtrip t v hwf hwt

/-- …also after the exported object went through a JSON dump and load (tuples become arrays) -/
theorem roundtrip_json (t : Ty) (v : Val) (hwf : t.wf = true) (hwt : WT t v = true) :
    fromObj t (jsonNorm (toObj t v)) = some v := ObjRoundtrip.roundtrip_json t v hwf hwt

/-- the exported object has the documented plain shape -/
theorem shape (t : Ty) (v : Val) (hwf : t.wf = true) (hwt : WT t v = true) :
    ObjRoundtrip.Shape t (toObj t v) := ObjRoundtrip.shape t v hwf hwt

/-- import is insensitive to tuple-vs-array for every object, valid or not -/
theorem import_jsonNorm (t : Ty) (o : Obj) : fromObj t (jsonNorm o) = fromObj t o :=
  ObjRoundtrip.fromObj_jsonNorm t o

end Rmk.C16
