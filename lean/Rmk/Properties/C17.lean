/-
C17 — Partial trees: summaries keep the root, excluded data is never misread.
Tree-level statements (the view level is reads / writes by generalized index through these).
-/
import Rmk.Proofs.TreeLaws
import Rmk.Proofs.PartialViews
import Rmk.Proofs.ElemLaws
import Rmk.Proofs.PartialNested
import Rmk.Proofs.ObjTreePartial
namespace Rmk.C17
open Rmk

/-- Replacing any subtrees by bare summaries of their roots keeps the root. -/
theorem root_unchanged (H : Hash) (a b : Node) (h : Summ H a b) : a.root H = b.root H := h.root_eq

/-- `summarize_into` produces such a partial tree. -/
theorem summarize_is_summ (H : Hash) (n : Node) (p : List Bool) (m : Node)
    (h : summarizePath H n p = some m) : Summ H m n := summarizePath_summ H n p m h

/-- A read on the partial tree either fails with a navigation error (`none`) or returns the
    (possibly partial) subtree that the complete tree has at that position: never wrong data. -/
theorem read_agrees (H : Hash) (a b : Node) (h : Summ H a b) (p : List Bool) :
    getPath a p = none ∨ ∃ x y, getPath a p = some x ∧ getPath b p = some y ∧ Summ H x y ∧
      x.root H = y.root H := by
  cases hx : getPath a p with
  | none => exact .inl rfl
  | some x =>
    obtain ⟨y, hy, hs⟩ := h.getPath p x hx
    exact .inr ⟨x, y, rfl, hy, hs, hs.root_eq⟩

/-- A write on the partial tree either fails with a navigation error or gives the partial version
    of the result of the same write on the complete tree: in particular the roots after the write
    are equal. -/
theorem write_agrees (H : Hash) (a b : Node) (h : Summ H a b) (p : List Bool) (v : Node) :
    setPath H false a p v = none ∨ ∃ a' b', setPath H false a p v = some a' ∧
      setPath H false b p v = some b' ∧ Summ H a' b' ∧ a'.root H = b'.root H := by
  cases hx : setPath H false a p v with
  | none => exact .inl rfl
  | some a' =>
    obtain ⟨b', hb, hs⟩ := h.setPath p v a' hx
    exact .inr ⟨a', b', rfl, hb, hs, hs.root_eq⟩

/-- A write with expansion never turns an excluded (non-zero) summary into data: it fails. -/
theorem write_expand_excluded_fails (H : Hash) (a : Node) (q r : List Bool) (b : Bool) (c : Chunk) (v : Node)
    (hg : getPath a q = some (.leaf c)) (hc : c ≠ zeroHash H (r.length + 1)) :
    setPath H true a (q ++ b :: r) v = none := setPath_expand_nonzero H a q r b c v hg hc

/-! ### view level -/

/-- A complete read of a view over a partial tree either fails (navigation into an excluded subtree)
    or returns exactly what the complete tree returns: excluded data is never misread. -/
theorem view_read (H : Hash) (t : Ty) (a b : Node) (h : Summ H a b) :
    Impl.readVal H t a = none ∨ Impl.readVal H t a = Impl.readVal H t b :=
  PartialViews.summ_readVal H t a b h

/-- the same for serialisation -/
theorem view_serialize (H : Hash) (t : Ty) (a b : Node) (h : Summ H a b) :
    Impl.serTree H t a = none ∨ Impl.serTree H t a = Impl.serTree H t b :=
  PartialViews.summ_serTree H t a b h

/-- Every mutation of the public interface except `append` (which expands zero summaries), on a view
    over a partial tree, either fails or gives the partial version of the result on the complete
    tree — so the roots after the write are equal.  No hypothesis on the hash. -/
theorem view_write (H : Hash) (t : Ty) (a b : Node) (op : Impl.Op) (h : Summ H a b)
    (hop : ∀ v, op ≠ .append v) :
    Impl.apply H t a op = none ∨ ∃ a' b', Impl.apply H t a op = some a' ∧
      Impl.apply H t b op = some b' ∧ Summ H a' b' :=
  PartialViews.summ_apply_partial H t a b op h hop

/-- …and `append` too, under the explicit hypothesis that nothing but two zero hashes of height `d`
    hashes to the zero hash of height `d+1` (implied by collision-freeness; without it the statement
    is FALSE for a contrived hash: `PartialViews.append_counterexample`). -/
theorem view_write_all (H : Hash) (hZ : PartialViews.ZeroInj H) (t : Ty) (a b : Node) (op : Impl.Op)
    (h : Summ H a b) :
    Impl.apply H t a op = none ∨ ∃ a' b', Impl.apply H t a op = some a' ∧
      Impl.apply H t b op = some b' ∧ Summ H a' b' :=
  PartialViews.summ_apply H hZ t a b op h

/-- summarising further positions keeps the relation to the complete tree -/
theorem summarize_more (H : Hash) (a a' b : Node) (p : List Bool)
    (hs : summarizePath H a p = some a') (h : Summ H a b) : Summ H a' b :=
  PartialViews.summarizePath_summ_of_summ H a a' b p hs h

/-! Non-vacuity -/
private def H0 : Hash := fun a b => a ++ b
private def full : Node := .pair (.pair (.leaf [1]) (.leaf [2])) (.leaf [3])
private def part : Node := .pair (.leaf [1, 2]) (.leaf [3])
example : Summ H0 part full := .pair _ _ _ _ (.leaf (.pair (.leaf [1]) (.leaf [2]))) (.refl _)
example : getPath part [false, true] = none ∧ getPath part [true] = getPath full [true] := by decide

/-! ### element-wise reads and nested writes on partial trees -/

/-- element reads, `len()` and slice reads on a partial tree either fail or return exactly what the complete
    tree returns (never wrong data) -/
theorem elem_read (H : Hash) (t : Ty) (p n : Node) (i : Nat) (h : Summ H p n) :
    Impl.readElem H t p i = none ∨ Impl.readElem H t p i = Impl.readElem H t n i :=
  ElemLaws.readElem_summ_or H t p n i h

theorem len_read (H : Hash) (t : Ty) (p n : Node) (h : Summ H p n) :
    Impl.viewLen H t p = none ∨ Impl.viewLen H t p = Impl.viewLen H t n :=
  ElemLaws.viewLen_summ_or H t p n h

theorem slice_read (H : Hash) (t : Ty) (p n : Node) (a b : Nat) (h : Summ H p n) :
    Impl.sliceRead H t p a b = none ∨ Impl.sliceRead H t p a b = Impl.sliceRead H t n a b :=
  ElemLaws.sliceRead_summ_or H t p n a b h

/-- a mutation THROUGH A CHILD VIEW of a partial tree (child taken at key `i`, mutated, written back) either fails
    or succeeds on the complete tree too, with results that are again partial / complete versions of each other
    and have the same root (every mutator but `append`, no hypothesis on the hash) -/
theorem nested_write (H : Hash) (t : Ty) (p n : Node) (i : Nat) (op : Impl.Op)
    (hop : ∀ v, op ≠ .append v) (h : Summ H p n) :
    PartialNested.subApply H t p i op = none ∨ ∃ p' n', PartialNested.subApply H t p i op = some p' ∧
      PartialNested.subApply H t n i op = some n' ∧ Summ H p' n' ∧ p'.root H = n'.root H :=
  PartialNested.subApply_agrees t p n i op hop h

/-- all mutators, `append` included, when no non-zero subtree hashes like a zero subtree -/
theorem nested_write_all (H : Hash) (hZ : PartialViews.ZeroInj H) (t : Ty) (p n : Node) (i : Nat) (op : Impl.Op) (p' : Node)
    (h : Summ H p n) (hs : PartialNested.subApply H t p i op = some p') :
    ∃ n', PartialNested.subApply H t n i op = some n' ∧ Summ H p' n' :=
  PartialNested.subApply_summ_all hZ h hs

/-- obtaining a child VIEW of a partial tree (`childroot` in the protocol): when it succeeds, the complete tree has a
    child of the same type there, the partial tree's child is a partial version of it — in particular it has the same
    root, whatever is summarised below or AT the child's own root -/
theorem child_view (H : Hash) (t : Ty) (p n : Node) (i : Nat) (ct : Ty) (cp : Node) (h : Summ H p n)
    (hc : Impl.childOf H t p i = some (ct, cp)) :
    ∃ cn, Impl.childOf H t n i = some (ct, cn) ∧ Summ H cp cn ∧ cp.root H = cn.root H := by
  obtain ⟨cn, h1, h2⟩ := PartialNested.childOf_summ h hc
  exact ⟨cn, h1, h2, h2.root_eq⟩

/-- OBJECT EXPORT of a partial tree: `to_obj()` as the library computes it (read-only iterators over the tree, the
    tree-reading serialiser) on a tree in which ANY subtrees were summarised either raises or returns exactly the export of
    the complete value — excluded data is never misread into an export.  (The `Repr` hypothesis is on the COMPLETE tree.) -/
theorem export_partial (H : Hash) (t : Ty) (v : Val) (p n : Node) (hwf : t.wf = true)
    (hlim : ReprBasics.limitsOk t = true) (hs : Summ H p n) (h : Impl.Repr H t v n) :
    Impl.toObjTree H t p = none ∨ Impl.toObjTree H t p = some (Obj.toObj t v) :=
  ObjTreePartial.toObjTree_summ_repr H t v p n hwf hlim hs h

/-- … in particular it fails or agrees with the export computed on the complete tree -/
theorem export_partial_agrees (H : Hash) (t : Ty) (v : Val) (p n : Node) (hwf : t.wf = true)
    (hlim : ReprBasics.limitsOk t = true) (hs : Summ H p n) (h : Impl.Repr H t v n) :
    Impl.toObjTree H t p = none ∨ Impl.toObjTree H t p = Impl.toObjTree H t n :=
  ObjTreePartial.toObjTree_summ H t v p n hwf hlim hs h

end Rmk.C17
