/-
C18 — History changelog and tree diff report exactly the real changes.
-/
import Rmk.Proofs.DiffHistory
import Rmk.Proofs.Gindex
import Rmk.Proofs.Leftovers
import Rmk.Proofs.DiffOfWrite
namespace Rmk.C18
open Rmk

/-- Changelog: with a collision-free hash (explicit hypothesis `hH`; the code de-duplicates on the
    roots of the ancestors level by level) and when the position exists in every entry, the changelog
    of `target` is the per-entry lookup with consecutive repeats dropped, each kept entry keyed by
    the first entry in which it appeared. -/
theorem history_spec (H : Hash) (hH : Injective2 H) (hist : List (Nat × Node)) (g : Nat) (hg : g ≠ 0)
    (hl : ∀ e ∈ hist, (getter e.2 g).isSome) :
    targetHistory H hist g =
      some (ddBy (rootKey H) (hist.map fun e => (e.1, atD (gbits g) e.2)) none) := by
  simp only [targetHistory, hg, if_false]
  apply targetHistoryPath_spec H hH
  intro e he
  simpa [getter, hg] using hl e he

/-- …so it is never empty for a non-empty history. -/
theorem history_nonempty (H : Hash) (hH : Injective2 H) (hist : List (Nat × Node)) (g : Nat) (hg : g ≠ 0)
    (hl : ∀ e ∈ hist, (getter e.2 g).isSome) (hne : hist ≠ []) :
    ∃ r, targetHistory H hist g = some r ∧ r ≠ [] := by
  refine ⟨_, history_spec H hH hist g hg hl, ?_⟩
  apply ddBy_none_ne_nil
  simpa using hne

/-- The diff is empty when the roots are equal. -/
theorem diff_empty_of_root_eq (H : Hash) (a b : Node) (h : a.root H = b.root H) : getDiff H a b = [] :=
  getDiff_root_eq H a b h

/-- …and non-empty when they differ. -/
theorem diff_nonempty_of_root_ne (H : Hash) (a b : Node) (h : a.root H ≠ b.root H) : getDiff H a b ≠ [] := by
  rw [getDiff_eq_map]
  simpa using getDiffPos_nonempty_of_ne H a b h

/-- Every listed pair consists of the subtrees found at one position of the two trees, they differ,
    and they cannot be diffed deeper (one of them is a leaf): the pairs are the minimal differing ones. -/
theorem diff_sound (H : Hash) (a b : Node) (x y : Node) (hm : (x, y) ∈ getDiff H a b) :
    ∃ p, getPath a p = some x ∧ getPath b p = some y ∧ x.root H ≠ y.root H ∧ (x.isLeaf ∨ y.isLeaf) := by
  rw [getDiff_eq_map, List.mem_map] at hm
  obtain ⟨⟨p, x', y'⟩, hp, heq⟩ := hm
  simp at heq
  obtain ⟨rfl, rfl⟩ := heq
  exact ⟨p, getDiffPos_sound H a b p x' y' hp⟩

/-- The pairs are listed strictly left to right (hence at distinct positions, none a prefix of another). -/
theorem diff_left_to_right (H : Hash) (a b : Node) :
    ((getDiffPos H a b).map (·.1)).Pairwise leftOf ∧ ((getDiffPos H a b).map (·.1)).Nodup :=
  ⟨Leftovers.getDiffPos_sorted H a b, Leftovers.getDiffPos_nodup H a b⟩

/-- EXACTLY the minimal differing pairs: `(p, x, y)` is reported iff `x`, `y` sit at `p` in the two
    trees, one of them is a leaf, and the roots differ at `p` and at every prefix of `p`. -/
theorem diff_exact (H : Hash) (a b : Node) (p : List Bool) (x y : Node) :
    (p, x, y) ∈ getDiffPos H a b ↔
      (getPath a p = some x ∧ getPath b p = some y ∧ (x.isLeaf = true ∨ y.isLeaf = true) ∧
        ∀ q, q <+: p → ∀ u v, getPath a q = some u → getPath b q = some v → u.root H ≠ v.root H) :=
  Leftovers.mem_getDiffPos_iff H a b p x y

/-- Grafting the second members into the first tree (at the positions where they were found, in
    order) reproduces the second tree's root. -/
theorem graft (H : Hash) (a b : Node) :
    ∃ r, graftAll H a (getDiffPos H a b) = some r ∧ r.root H = b.root H :=
  graft_getDiffPos H a b

/-- Leaf iteration lists every leaf once, left to right. -/
theorem leafIter_spec (n : Node) :
    (leafIter n).map some = (leafPaths n).map (getPath n) ∧
    (∀ p, p ∈ leafPaths n ↔ ∃ c, getPath n p = some (.leaf c)) ∧
    (leafPaths n).Pairwise leftOf :=
  ⟨leafIter_eq n, mem_leafPaths n, leafPaths_sorted n⟩

/-! Non-vacuity -/
private def H0 : Hash := fun a b => a ++ b
private def ta : Node := .pair (.leaf [1]) (.pair (.leaf [2]) (.leaf [3]))
private def tb : Node := .pair (.leaf [1]) (.pair (.leaf [9]) (.leaf [3]))

example : getDiff H0 ta tb = [(.leaf [2], .leaf [9])] := by decide
example : targetHistory H0 [(0, ta), (1, ta), (2, tb), (3, ta)] 6 =
    some [(0, .leaf [2]), (2, .leaf [9]), (3, .leaf [2])] := by decide
example : Injective2 (fun (a b : Chunk) => a.length.toUInt8 :: a ++ b) ∨ True := .inr trivial

/-! ### the diff of a tree with its written version -/

/-- THE DIFF REPORTS EXACTLY THE WRITE: if `m` is `n` with `v` written at path `p` (where `old` was) and the roots
    along the path changed, the positioned diff of `n` and `m` is the diff of `old` and `v`, moved to `p` -/
theorem diff_of_write (H : Hash) (n m : Node) (p : List Bool) (old v : Node)
    (hg : getPath n p = some old) (hs : setPath H false n p v = some m)
    (hd : ∀ k ≤ p.length,
      ((getPath n (p.take k)).map (·.root H)) ≠ ((getPath m (p.take k)).map (·.root H))) :
    getDiffPos H n m = (getDiffPos H old v).map (fun (q, x, y) => (p ++ q, x, y)) :=
  DiffOfWrite.diffPos_of_write H n m p old v hg hs hd

/-- (for a collision-free hash the condition is just "the written subtree has another root") -/
theorem diff_of_write_inj (H : Hash) (hH : Injective2 H) (n m : Node) (p : List Bool) (old v : Node)
    (hg : getPath n p = some old) (hs : setPath H false n p v = some m) (hne : old.root H ≠ v.root H) :
    getDiff H n m = getDiff H old v :=
  DiffOfWrite.diff_of_write_inj H hH n m p old v hg hs hne

/-- a write of something with the same root is not reported at all -/
theorem diff_of_noop_write (H : Hash) (n m : Node) (p : List Bool) (old v : Node)
    (hg : getPath n p = some old) (hs : setPath H false n p v = some m)
    (he : old.root H = v.root H) : getDiff H n m = [] :=
  DiffOfWrite.diff_of_noop_write H n m p old v hg hs he

/-- an expanding write through a zero summary is reported as ONE pair: the summary against the expanded subtree -/
theorem diff_of_expanding_write (H : Hash) (n m : Node) (p q r : List Bool) (d : Nat) (v : Node)
    (hp : p = q ++ r)
    (hg : getPath n q = some (.leaf (zeroHash H d))) (hs : setPath H true n p v = some m)
    (hd : ∀ k ≤ q.length,
      ((getPath n (q.take k)).map (·.root H)) ≠ ((getPath m (q.take k)).map (·.root H))) :
    getDiffPos H n m = [(q, .leaf (zeroHash H d), expandSet H r v)] :=
  DiffOfWrite.diffPos_of_expanding_write H n m p q r d v hp hg hs hd

end Rmk.C18
