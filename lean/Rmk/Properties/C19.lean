/-
C19 — Updates share all untouched subtrees and re-hash only the changed path.
C06 — (heap level) backings are persistent: snapshots never change.
Model: Rmk/Impl/Heap.lean (cells with addresses = object identity, cached roots, hash-call counter).
-/
import Rmk.Proofs.HeapLaws
namespace Rmk.C19
open Rmk Rmk.Heap Rmk.HeapLaws

/-- the heap write refines the pure `setPath` (so all get/set laws of C07 hold for it) -/
theorem refines_setPath (H : Hash) (e : Bool) (h : Heap) (hsh : Shape h) (a v : Nat)
    (ha : a < h.cells.size) (hv : v < h.cells.size) (p : List Bool) :
    (setPathH H e h a p v).map (fun x => denote x.1 x.2) = setPath H e (denote h a) p (denote h v) :=
  denote_setPathH_eq H e hsh ha hv p

/-- SHARING: a write rebuilds only the path — at every step of the path the off-path child of the
    new cell is the very same address (object) as in the old cell; exactly `|p|` cells are new. -/
theorem shares_off_path (H : Hash) (h h' : Heap) (a a' v : Nat) (p : List Bool)
    (hs : setPathH H false h a p v = some (h', a')) :
    SharesOffPath h a h' a' p ∧ h'.cells.size = h.cells.size + p.length :=
  ⟨setPathH_shares hs, setPathH_size hs⟩

/-- a write never modifies an existing cell (not even a cache) and computes no hash -/
theorem write_is_pure_allocation (H : Hash) (e : Bool) (h h' : Heap) (a a' v : Nat) (p : List Bool)
    (hs : setPathH H e h a p v = some (h', a')) :
    h.cells.size ≤ h'.cells.size ∧ (∀ b, b < h.cells.size → h'.cells[b]? = h.cells[b]?) ∧
      h'.hashCalls = h.hashCalls := setPathH_cells hs

/-- HASH COST: computing a root performs exactly one hash per distinct uncached pair reachable … -/
theorem root_cost (H : Hash) (h : Heap) (a : Nat) :
    (merkleRoot H h a).1.hashCalls = h.hashCalls + uncached h a := merkleRoot_cost_eq H h a

/-- … so none at all when nothing changed since the last computation (also for a copy of a view or
    a view re-created from the same backing: they share the address) … -/
theorem second_root_free (H : Hash) (h : Heap) (a : Nat) :
    merkleRoot H (merkleRoot H h a).1 a = merkleRoot H h a ∧ uncached (merkleRoot H h a).1 a = 0 :=
  ⟨merkleRoot_idempotent H h a, merkleRoot_idempotent_zero H h a⟩

/-- … and after a write into a fully hashed tree at most the length of the changed path plus the
    not yet hashed pairs of the inserted sub-value. -/
theorem path_cost (H : Hash) (h h' : Heap) (a a' v : Nat) (p : List Bool)
    (hh : Hashed h a) (hv : v < h.cells.size) (hs : setPathH H false h a p v = some (h', a')) :
    (merkleRoot H h' a').1.hashCalls - h.hashCalls ≤ p.length + uncached h v :=
  setPath_then_root_cost hh hv hs

/-- the computed root is the root of the denoted tree (a cache is never stale) -/
theorem root_value (H : Hash) (h : Heap) (hw : WF H h) (a : Nat) :
    (merkleRoot H h a).2 = (denote h a).root H := merkleRoot_value hw a

/-- C06: whatever sequence of modelled operations (allocations, writes with or without expansion,
    root computations) happens later, an address that existed keeps denoting exactly the same tree,
    and its root recomputed at any later time is the old root. -/
theorem snapshots_persistent (H : Hash) (h h' : Heap) (hw : WF H h) (s : Steps H h h') (b : Nat)
    (hb : b < h.cells.size) :
    denote h' b = denote h b ∧ (merkleRoot H h' b).2 = (denote h b).root H :=
  ⟨snapshot_persistent s b hb, snapshot_root hw s b hb⟩

/-- the only change root computation ever makes to an existing cell is filling an empty cache -/
theorem root_only_fills_caches (H : Hash) (h : Heap) (a b : Nat) (hb : b < h.cells.size) :
    (merkleRoot H h a).1.cells[b]? = h.cells[b]? ∨
      ∃ l r c, h.cells[b]? = some (Cell.pair l r none) ∧
        (merkleRoot H h a).1.cells[b]? = some (Cell.pair l r (some c)) :=
  merkleRoot_cells H h a b hb

end Rmk.C19
