/-
C20 — Lazily loaded (virtual) trees behave exactly like materialised trees.
Model: Rmk/Impl/Virtual.lean (mixed trees `MNode` with virtual nodes served by a root-keyed source
`src`; `Serves H src n`: the source serves the materialised tree `n`; `Mat H src m n`: the mixed tree
`m` materialises to `n`).
-/
import Rmk.Proofs.VirtualLaws
import Rmk.Proofs.VirtualViewLaws
import Rmk.Proofs.VirtualIterLaws
import Rmk.Proofs.VirtualApplyLaws
import Rmk.Proofs.VirtualPartial
namespace Rmk.C20
open Rmk Rmk.Virtual Rmk.VirtualLaws

/-- a virtual tree can be created for every tree the source serves, and has the same root -/
theorem virtual_root (H : Hash) (src : Src) (n : Node) (h : Serves H src n) :
    Mat H src (.virt (n.root H)) n ∧ (MNode.virt (n.root H)).root H = n.root H :=
  ⟨mat_virt h, rfl⟩

/-- same navigation results and same navigation errors; the nodes reached have the same roots -/
theorem navigation (H : Hash) (src : Src) (m : MNode) (n : Node) (h : Mat H src m n) (p : List Bool) :
    (getPathM src m p = none ↔ getPath n p = none) ∧
    (∀ m' n', getPathM src m p = some m' → getPath n p = some n' → Mat H src m' n') ∧
    (getPathM src m p).map (·.root H) = (getPath n p).map (·.root H) :=
  ⟨(getPathM_mat h p).1, (getPathM_mat h p).2, getPathM_root h p⟩

/-- writes (with or without expansion) through a virtual backing succeed / fail exactly like on the
    materialised tree and give trees that materialise to the same result — same roots after writes,
    hence same view contents, encodings and roots for every mutation made through them -/
theorem writes (H : Hash) (src : Src) (m v : MNode) (n v' : Node) (e : Bool)
    (h : Mat H src m n) (hv : Mat H src v v') (p : List Bool) :
    (setPathM H src e m p v = none ↔ setPath H e n p v' = none) ∧
    (∀ m' n', setPathM H src e m p v = some m' → setPath H e n p v' = some n' → Mat H src m' n') ∧
    (setPathM H src e m p v).map (·.root H) = (setPath H e n p v').map (·.root H) :=
  ⟨(setPathM_mat e h hv p).1, (setPathM_mat e h hv p).2, setPathM_root e h hv p⟩

/-- each node asks the source for a given child (or for its leaf-ness) at most once: over ANY
    sequence of navigations the log of answered `(node object, query kind)` pairs has no repetition,
    and nothing that is already memoised is asked again -/
theorem at_most_once (src : Src) (ps : List (List Bool)) (m : Memo) :
    (answered (runNavs src ps m).2.2).Nodup ∧
    ∀ pos k, (pos, k) ∈ answered (runNavs src ps m).2.2 → m.has pos k = false :=
  runNavs_at_most_once src ps m

/-- memoising the source's answers cannot change any result (they are functions of the root only) -/
theorem memo_is_sound (src : Src) (tbl : Table) (h : TableOk src tbl) (H : Hash) :
    getPathM (memoSrc src tbl) = getPathM src ∧ setPathM H (memoSrc src tbl) = setPathM H src ∧
    isLeafM (memoSrc src tbl) = isLeafM src := memo_sound h H

/-- one navigation of a path `p` makes at most `|p|` queries, for distinct nodes -/
theorem queries_bounded (src : Src) (m : MNode) (p : List Bool) :
    (getPathLog src m p).2.length ≤ p.length ∧ ((getPathLog src m p).2.map (·.1)).Nodup :=
  ⟨getPathLog_length src m p, getPathLog_nodup src m p⟩

/-! ### the VIEW level: reads through a view over a lazily loaded backing

`Rmk/Impl/VirtualView.lean` mirrors the view reads of the model (`readVal`, `readElem`, `viewLen`, `sliceRead`) line by
line over mixed trees: `getter` becomes `getPathM` (a virtual node asks the source), `merkle_root()` the stored root. -/

/-- EVERY VIEW READ (complete read, `view[i]`, `len(view)`, in-range slices) over a mixed tree that materialises to `n`
    — some nodes ordinary, some virtual, at any positions — gives exactly what it gives over `n`: the same value or the
    same failure, for every type (no hypothesis on `t`, on the value or on the shape of the tree). -/
theorem view_reads (H : Hash) (src : Src) (t : Ty) (m : MNode) (n : Node) (h : Mat H src m n) :
    readValM H src t m = Impl.readVal H t n ∧
    (∀ i, readElemM H src t m i = Impl.readElem H t n i) ∧
    viewLenM H src t m = Impl.viewLen H t n ∧
    (∀ a b, sliceReadM H src t m a b = Impl.sliceRead H t n a b) :=
  ⟨VirtualViewLaws.readValM_mat H src t m n h, fun i => VirtualViewLaws.readElemM_mat h t i,
    VirtualViewLaws.viewLenM_mat h t, fun a b => VirtualViewLaws.sliceReadM_mat h t a b⟩

/-- in particular over the wholly virtual node `VirtualNode(root, src)` whose source serves `n` -/
theorem view_reads_wholly_virtual (H : Hash) (src : Src) (t : Ty) (n : Node) (hs : Serves H src n) :
    readValM H src t (.virt (n.root H)) = Impl.readVal H t n ∧
    (∀ i, readElemM H src t (.virt (n.root H)) i = Impl.readElem H t n i) ∧
    viewLenM H src t (.virt (n.root H)) = Impl.viewLen H t n :=
  VirtualViewLaws.virtual_view_reads t hs

/-- THE OTHER READ ROUTES over a mixed tree: the read-only stack iterators (`NodeIter`, `PackedIter`, `BitfieldIter`: a
    virtual bottom node ASKS THE SOURCE whether it is a leaf), the tree-reading serialiser (`encode_bytes` / `serialize`) and
    `to_obj()` (`Impl/VirtualIter.lean`) give exactly what they give over the materialised tree — same results, same
    failures, every type. -/
theorem view_iterators_serialiser_export (H : Hash) (src : Src) (t : Ty) (m : MNode) (n : Node) (h : Mat H src m n) :
    (∀ depth len, VirtualLaws.OptRel (Impl.AllRel (Mat H src)) (nodeIterM src m depth len) (Impl.nodeIter n depth len)) ∧
    (∀ et depth len, packedIterM H src et m depth len = Impl.packedIter H et n depth len) ∧
    (∀ depth len, bitfieldIterM H src m depth len = Impl.bitfieldIter H n depth len) ∧
    serTreeM H src t m = Impl.serTree H t n ∧
    toObjTreeM H src t m = Impl.toObjTree H t n :=
  ⟨fun d l => VirtualIterLaws.nodeIterM_rel h d l, fun et d l => VirtualIterLaws.packedIterM_mat h et d l,
    fun d l => VirtualIterLaws.bitfieldIterM_mat h d l, VirtualIterLaws.serTreeM_mat H src t m n h,
    VirtualIterLaws.toObjTreeM_mat H src t m n h⟩

/-- VIEW MUTATORS over a mixed tree (`Impl/VirtualApply.lean`: `set` / `append` / `pop` / `change` of every view kind,
    mirrored line by line; a virtual node on the way asks the source and is rebound into an ordinary pair): a mutator
    fails on the mixed tree exactly when it fails on the materialised one, and the new backings materialise to each other —
    so every later read, root and mutation agrees again (`view_reads`, `virtual_root`). -/
theorem view_mutators (H : Hash) (src : Src) (t : Ty) (m : MNode) (n : Node) (h : Mat H src m n) (op : Impl.Op) :
    VirtualLaws.OptRel (Mat H src) (applyM H src t m op) (Impl.apply H t n op) :=
  VirtualApplyLaws.applyM_rel h t op

/-- … for EVERY HISTORY of mutations through the view, starting from the wholly virtual node: it fails at the same
    operation or ends in backings with the same root. -/
theorem view_history_wholly_virtual (H : Hash) (src : Src) (t : Ty) (n : Node) (hs : Serves H src n) (ops : List Impl.Op) :
    VirtualLaws.OptRel (Mat H src) (applyAllM H src t (.virt (n.root H)) ops) (applyAll H t n ops) ∧
    (applyAllM H src t (.virt (n.root H)) ops).map (·.root H) = (applyAll H t n ops).map (·.root H) :=
  ⟨VirtualApplyLaws.virtual_apply_history hs t ops, VirtualApplyLaws.virtual_apply_history_root hs t ops⟩

/-- A PARTIAL TREE SERVED LAZILY (C17 and C20 together: the mixed tree `m` materialises to a tree `p` in which subtrees of
    the complete tree `n` were summarised): every read fails or agrees with the complete tree, the serialiser likewise, and a
    mutator (every operation; `append` needs `ZeroInj H`, as on partial trees in general) fails or succeeds on the complete
    tree too with a backing of the same root. -/
theorem partial_tree_served_lazily (H : Hash) (src : Src) (t : Ty) (m : MNode) (p n : Node)
    (hm : Mat H src m p) (hs : Summ H p n) :
    ((readValM H src t m = none ∨ readValM H src t m = Impl.readVal H t n) ∧
     (∀ i, readElemM H src t m i = none ∨ readElemM H src t m i = Impl.readElem H t n i) ∧
     (viewLenM H src t m = none ∨ viewLenM H src t m = Impl.viewLen H t n) ∧
     (∀ a b, sliceReadM H src t m a b = none ∨ sliceReadM H src t m a b = Impl.sliceRead H t n a b)) ∧
    (serTreeM H src t m = none ∨ serTreeM H src t m = Impl.serTree H t n) ∧
    (∀ op, (∀ v, op ≠ .append v) → applyM H src t m op = none ∨ ∃ m' p' n', applyM H src t m op = some m' ∧
      Impl.apply H t n op = some n' ∧ Mat H src m' p' ∧ Summ H p' n' ∧ m'.root H = n'.root H) ∧
    (PartialViews.ZeroInj H → ∀ op, applyM H src t m op = none ∨ ∃ m' p' n', applyM H src t m op = some m' ∧
      Impl.apply H t n op = some n' ∧ Mat H src m' p' ∧ Summ H p' n' ∧ m'.root H = n'.root H) :=
  ⟨VirtualPartial.reads_fail_or_agree hm hs t, VirtualPartial.ser_fail_or_agree hm hs t,
    fun op hop => VirtualPartial.mutator_root_partial hm hs t op hop,
    fun hZ op => VirtualPartial.mutator_root hZ hm hs t op⟩

end Rmk.C20
