/-
Spec layer: the effect of the public mutating operations on plain values, with the constraint
checks the property C04 / C14 speak about.  `none` = the operation must raise.
-/
import Rmk.Spec.Ssz
import Rmk.Impl.View
namespace Rmk.Spec
open Rmk

/-- type of field / option `i` -/
def nth? (ts : List Ty) (i : Nat) : Option Ty := ts[i]?

def applyOp (t : Ty) (v : Val) (op : Impl.Op) : Option Val :=
  match t, v, op with
  | .vector et n, .seq vs, .set i x =>
    if i < n && i < vs.length && WT et x then some (.seq (vs.set i x)) else none
  | .list et _, .seq vs, .set i x =>
    if i < vs.length && WT et x then some (.seq (vs.set i x)) else none
  | .list et lim, .seq vs, .append x =>
    if vs.length < lim && WT et x then some (.seq (vs ++ [x])) else none
  | .list _ _, .seq vs, .pop => if vs.length = 0 then none else some (.seq vs.dropLast)
  | .container fs, .seq vs, .set i x =>
    match fs[i]? with
    | some ft => if i < vs.length && WT ft x then some (.seq (vs.set i x)) else none
    | none => none
  | .bitvector n, .bits bs, .set i (.num b) =>
    if i < n && i < bs.length then some (.bits (bs.set i (b != 0))) else none
  | .bitlist _, .bits bs, .set i (.num b) =>
    if i < bs.length then some (.bits (bs.set i (b != 0))) else none
  | .bitlist lim, .bits bs, .append (.num b) =>
    if bs.length < lim then some (.bits (bs ++ [b != 0])) else none
  | .bitlist _, .bits bs, .pop => if bs.length = 0 then none else some (.bits bs.dropLast)
  | .union hasNone opts, .un _ _, .change sel x =>
    if WT (.union hasNone opts) (.un sel x) && sel < optCount hasNone opts then some (.un sel x) else none
  | _, _, _ => none

end Rmk.Spec
