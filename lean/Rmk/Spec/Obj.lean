/-
Object export / import (`to_obj()` / `from_obj()`), property C16, over plain values.

`Obj` is the Python object tree produced by `to_obj` (ints, strings, bools, `None`, lists, tuples,
dicts with insertion order).  `toObj` is the library's `to_obj`; `fromObj` accepts every object `toObj` (and
its JSON image) produces plus plain numbers / hex strings for integers — a SUBSET of what the library's lenient
`from_obj` accepts (the library also takes a bool as a union selector and integer strings such as ' 12' or '+12');
only `fromObj ∘ toObj` and `fromObj ∘ jsonNorm ∘ toObj` are claimed (C16); `jsonNorm` is `json.loads(json.dumps(o))` (tuples become lists) and
`toJson` is `json.dumps(o, separators=(',', ':'))`.

Container fields are positional in the model; field `i` is called `"f" ++ toString i`.
Core Lean only (this file is linked into the driver).
-/
import Rmk.Model.Types
import Rmk.Spec.Ssz
namespace Rmk.Obj
open Rmk

inductive Obj where
  | num (n : Nat)
  | str (s : String)
  | bool (b : Bool)
  | null
  | arr (xs : List Obj)                    -- Python `list`
  | tup (xs : List Obj)                    -- Python `tuple`
  | dict (kvs : List (String × Obj))       -- Python `dict`, insertion order
  deriving Inhabited

/-- name of field `i` of a container -/
def fieldName (i : Nat) : String := "f" ++ toString i

/-- `'0x' + bytez.hex()` -/
def hexStr (bs : List UInt8) : String := "0x" ++ hexOf bs

/-! ### export -/

mutual
/-- `v.to_obj()` for a value `v` of type `t` (`null` on an ill-typed pair) -/
def toObj : Ty → Val → Obj
  | .uint nb, .num n =>
    -- uint8..uint64: `int(self)`;  uint128 / uint256: `"0x" + self.encode_bytes().hex()`
    if nb == 16 || nb == 32 then .str (hexStr (toLE nb n)) else .num n
  | .bool, .num n => .bool (n != 0)
  | .bitvector k, .bits bs => .str (hexStr (Spec.serialize (.bitvector k) (.bits bs)))
  | .bitlist k, .bits bs => .str (hexStr (Spec.serialize (.bitlist k) (.bits bs)))
  | .bytevector _, .bytes bs => .str (hexStr bs)
  | .bytelist _, .bytes bs => .str (hexStr bs)
  | .vector t _, .seq vs => .tup (vs.map (toObj t))
  | .list t _, .seq vs => .arr (vs.map (toObj t))
  | .container fs, .seq vs => .dict (toObjFields fs 0 vs)
  | .union hasNone opts, .un sel v =>
    .dict [("selector", .num sel),
           ("value", if hasNone && sel == 0 then .null else toObjOpt opts (optIndex hasNone sel) v)]
  | _, _ => .null
/-- fields `i, i+1, …` of a container -/
def toObjFields : List Ty → Nat → List Val → List (String × Obj)
  | t :: ts, i, v :: vs => (fieldName i, toObj t v) :: toObjFields ts (i + 1) vs
  | _, _, _ => []
def toObjOpt : List Ty → Nat → Val → Obj
  | [], _, _ => .null
  | t :: _, 0, v => toObj t v
  | _ :: ts, k+1, v => toObjOpt ts k v
end

/-! ### JSON -/

mutual
/-- `json.loads(json.dumps(o))`: tuples come back as lists -/
def jsonNorm : Obj → Obj
  | .arr xs => .arr (jsonNormList xs)
  | .tup xs => .arr (jsonNormList xs)
  | .dict kvs => .dict (jsonNormKvs kvs)
  | o => o
def jsonNormList : List Obj → List Obj
  | [] => []
  | x :: xs => jsonNorm x :: jsonNormList xs
def jsonNormKvs : List (String × Obj) → List (String × Obj)
  | [] => []
  | (k, x) :: kvs => (k, jsonNorm x) :: jsonNormKvs kvs
end

mutual
/-- `json.dumps(o, separators=(',', ':'))`.  Strings are printed without escaping (the strings
    `toObj` produces consist of hex digits, `x`, `f` and decimal digits only). -/
def toJson : Obj → String
  | .num n => toString n
  | .str s => "\"" ++ s ++ "\""
  | .bool b => if b then "true" else "false"
  | .null => "null"
  | .arr xs => "[" ++ toJsonList xs ++ "]"
  | .tup xs => "[" ++ toJsonList xs ++ "]"
  | .dict kvs => "{" ++ toJsonKvs kvs ++ "}"
def toJsonList : List Obj → String
  | [] => ""
  | x :: xs => toJson x ++ (if xs.isEmpty then "" else ",") ++ toJsonList xs
def toJsonKvs : List (String × Obj) → String
  | [] => ""
  | (k, x) :: kvs =>
    "\"" ++ k ++ "\":" ++ toJson x ++ (if kvs.isEmpty then "" else ",") ++ toJsonKvs kvs
end

/-! ### import helpers -/

/-- `Option` traversal of a list (all elements must succeed) -/
def optMapM {α β} (f : α → Option β) : List α → Option (List β)
  | [] => some []
  | x :: xs =>
    match f x with
    | none => none
    | some y =>
      match optMapM f xs with
      | none => none
      | some ys => some (y :: ys)

/-- `s.startswith('0x')` and the rest -/
def strip0x : List Char → Option (List Char)
  | '0' :: 'x' :: rest => some rest
  | _ => none

/-- the uint constructor: range check -/
def checkUint (nb n : Nat) : Option Val :=
  if n < 2 ^ (8 * nb) then some (.num n) else none

/-- Python truthiness `bool(o)` (bitfield constructors apply `map(bool, vals)`) -/
def truthy : Obj → Bool
  | .num n => n != 0
  | .str s => !s.toList.isEmpty
  | .bool b => b
  | .null => false
  | .arr xs => !xs.isEmpty
  | .tup xs => !xs.isEmpty
  | .dict kvs => !kvs.isEmpty

/-- an element accepted by `bytes([...])`: an int (or bool) in `range(256)` -/
def byteOfObj : Obj → Option UInt8
  | .num n => if n < 256 then some (UInt8.ofNat n) else none
  | .bool b => some (if b then 1 else 0)
  | _ => none

/-- `Bitvector[n].decode_bytes`: exactly `(n+7)/8` bytes, padding bits zero -/
def decodeBitvector (n : Nat) (bs : List UInt8) : Option Val :=
  let bits := bytesToBits bs
  if bs.length == (n + 7) / 8 && (bits.drop n).all (· == false) then some (.bits (bits.take n))
  else none

/-- remove the zero bits above the highest set bit -/
def stripTrailingFalse (bits : List Bool) : List Bool :=
  (bits.reverse.dropWhile (· == false)).reverse

/-- `Bitlist[lim].decode_bytes`: non-empty, last byte non-zero; the bits below the highest set bit
    (the delimiter) are the value; at most `lim` of them -/
def decodeBitlist (lim : Nat) (bs : List UInt8) : Option Val :=
  if bs.getLastD 0 == 0 then none
  else
    let data := (stripTrailingFalse (bytesToBits bs)).dropLast
    if data.length ≤ lim then some (.bits data) else none

/-- the bitvector constructor on a list of bits -/
def mkBitvector (n : Nat) (bits : List Bool) : Option Val :=
  if bits.length == n then some (.bits bits) else none

/-- the bitlist constructor on a list of bits -/
def mkBitlist (lim : Nat) (bits : List Bool) : Option Val :=
  if bits.length ≤ lim then some (.bits bits) else none

def mkBytevector (n : Nat) (bs : List UInt8) : Option Val :=
  if bs.length == n then some (.bytes bs) else none

def mkBytelist (lim : Nat) (bs : List UInt8) : Option Val :=
  if bs.length ≤ lim then some (.bytes bs) else none

/-- bytes from a `str`: optional `0x` prefix, then `bytes.fromhex` -/
def bytesFromStr (s : String) : Option (List UInt8) :=
  match strip0x s.toList with
  | some rest => unhexAux rest
  | none => unhexAux s.toList

/-- names of the fields of a container with `n` fields -/
def fieldNames (n : Nat) : List String := (List.range n).map fieldName

/-! ### import -/

mutual
/-- `T.from_obj(o)`; `none` = the library raises -/
def fromObj : Ty → Obj → Option Val
  -- uint: int (range-checked; a Python bool is an int), "0x" + little-endian hex of any length,
  -- or a decimal string
  | .uint nb, .num n => checkUint nb n
  | .uint nb, .bool b => checkUint nb (if b then 1 else 0)
  | .uint nb, .str s =>
    match strip0x s.toList with
    | some rest => (unhexAux rest).bind fun bs => checkUint nb (fromLE bs)
    | none => s.toNat?.bind (checkUint nb)
  -- boolean: only a bool
  | .bool, .bool b => some (.num (if b then 1 else 0))
  -- bitfields: "0x…" strictly decoded, a string of '0'/'1', or a list/tuple of truthy things
  | .bitvector n, .str s =>
    match strip0x s.toList with
    | some rest => (unhexAux rest).bind (decodeBitvector n)
    | none => mkBitvector n (s.toList.map (· == '1'))
  | .bitvector n, .arr xs => mkBitvector n (xs.map truthy)
  | .bitvector n, .tup xs => mkBitvector n (xs.map truthy)
  | .bitlist lim, .str s =>
    match strip0x s.toList with
    | some rest => (unhexAux rest).bind (decodeBitlist lim)
    | none => mkBitlist lim (s.toList.map (· == '1'))
  | .bitlist lim, .arr xs => mkBitlist lim (xs.map truthy)
  | .bitlist lim, .tup xs => mkBitlist lim (xs.map truthy)
  -- byte arrays: hex string (optional "0x"), or a list/tuple of byte values
  | .bytevector n, .str s => (bytesFromStr s).bind (mkBytevector n)
  | .bytevector n, .arr xs => (optMapM byteOfObj xs).bind (mkBytevector n)
  | .bytevector n, .tup xs => (optMapM byteOfObj xs).bind (mkBytevector n)
  | .bytelist lim, .str s => (bytesFromStr s).bind (mkBytelist lim)
  | .bytelist lim, .arr xs => (optMapM byteOfObj xs).bind (mkBytelist lim)
  | .bytelist lim, .tup xs => (optMapM byteOfObj xs).bind (mkBytelist lim)
  -- vector / list: list or tuple of element objects
  | .vector t n, .arr xs =>
    if xs.length == n then (optMapM (fromObj t) xs).map .seq else none
  | .vector t n, .tup xs =>
    if xs.length == n then (optMapM (fromObj t) xs).map .seq else none
  | .list t lim, .arr xs =>
    if xs.length ≤ lim then (optMapM (fromObj t) xs).map .seq else none
  | .list t lim, .tup xs =>
    if xs.length ≤ lim then (optMapM (fromObj t) xs).map .seq else none
  -- container: dict; unknown keys rejected, missing keys default, order irrelevant
  | .container fs, .dict kvs =>
    if kvs.all (fun kv => (fieldNames fs.length).contains kv.1) then
      (fromObjFields fs 0 kvs).map .seq
    else none
  -- union: dict with "selector" and "value" (other keys are ignored)
  | .union hasNone opts, .dict kvs =>
    match kvs.lookup "selector", kvs.lookup "value" with
    | some (.num sel), some o =>
      if sel ≥ optCount hasNone opts then none
      else if hasNone && sel == 0 then
        (match o with | .null => some (.un sel .none) | _ => none)
      else (fromObjOpt opts (optIndex hasNone sel) o).map (.un sel)
    | _, _ => none
  | _, _ => none
/-- fields `i, i+1, …` looked up by name in the whole dict; a missing key gives the zero value -/
def fromObjFields : List Ty → Nat → List (String × Obj) → Option (List Val)
  | [], _, _ => some []
  | t :: ts, i, kvs =>
    match (match kvs.lookup (fieldName i) with
           | none => some (Spec.zeroVal t)
           | some o => fromObj t o) with
    | none => none
    | some v =>
      match fromObjFields ts (i + 1) kvs with
      | none => none
      | some vs => some (v :: vs)
def fromObjOpt : List Ty → Nat → Obj → Option Val
  | [], _, _ => none
  | t :: _, 0, o => fromObj t o
  | _ :: ts, k+1, o => fromObjOpt ts k o
end

end Rmk.Obj
