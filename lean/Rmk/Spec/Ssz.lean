/-
Spec layer: a transcription of the SSZ specification (simple-serialize.md, merkle-proofs.md) over
plain values.  Meant to be read in minutes.  Nothing here looks at trees of the implementation.
-/
import Rmk.Model.Types
import Rmk.Model.Tree
namespace Rmk.Spec
open Rmk

/-! ### sizes -/

mutual
/-- `is_variable_size` negated -/
def isFixed : Ty → Bool
  | .uint _ => true
  | .bool => true
  | .bitvector _ => true
  | .bytevector _ => true
  | .bitlist _ => false
  | .bytelist _ => false
  | .list _ _ => false
  | .union _ _ => false
  | .vector t _ => isFixed t
  | .container fs => allFixed fs
def allFixed : List Ty → Bool
  | [] => true
  | t :: ts => isFixed t && allFixed ts
end

mutual
/-- serialized length of a fixed-size type (0 for variable-size types) -/
def fixedLen : Ty → Nat
  | .uint nb => nb
  | .bool => 1
  | .bitvector n => (n + 7) / 8
  | .bytevector n => n
  | .vector t n => n * fixedLen t
  | .container fs => fixedLenSum fs
  | _ => 0
def fixedLenSum : List Ty → Nat
  | [] => 0
  | t :: ts => fixedLen t + fixedLenSum ts
end

/-- length of the fixed section of a container: fixed-size fields and 4-byte offsets -/
def fixedPartLen : List Ty → Nat
  | [] => 0
  | t :: ts => (if isFixed t then fixedLen t else 4) + fixedPartLen ts

/-- the size of the part of a value that goes into the fixed section: itself, or a 4-byte offset -/
def partLen (fixed : Bool) (len : Nat) : Nat := if fixed then len else 4 + len

/-! ### serialization (simple-serialize.md "Serialization") -/

/-- interleave: given per-part (isFixed, bytes), the fixed section (parts or offsets) followed by the
    variable parts in order.  `fixedTotal` is the length of the fixed section. -/
def fixedSection : List (Bool × List UInt8) → Nat → List UInt8
  | [], _ => []
  | (true, b) :: rest, off => b ++ fixedSection rest off
  | (false, b) :: rest, off => toLE 4 off ++ fixedSection rest (off + b.length)

def varSection : List (Bool × List UInt8) → List UInt8
  | [] => []
  | (true, _) :: rest => varSection rest
  | (false, b) :: rest => b ++ varSection rest

def fixedTotal : List (Bool × List UInt8) → Nat
  | [] => 0
  | (true, b) :: rest => b.length + fixedTotal rest
  | (false, _) :: rest => 4 + fixedTotal rest

def interleave (parts : List (Bool × List UInt8)) : List UInt8 :=
  fixedSection parts (fixedTotal parts) ++ varSection parts

mutual
def serialize : Ty → Val → List UInt8
  | .uint nb, .num n => toLE nb n
  | .bool, .num n => [UInt8.ofNat n]
  | .bitvector _, .bits bs => bitsToBytes bs
  | .bitlist _, .bits bs => bitsToBytes (bs ++ [true])
  | .bytevector _, .bytes bs => bs
  | .bytelist _, .bytes bs => bs
  | .vector t _, .seq vs => interleave (vs.map fun v => (isFixed t, serialize t v))
  | .list t _, .seq vs => interleave (vs.map fun v => (isFixed t, serialize t v))
  | .container fs, .seq vs => interleave (serializeFields fs vs)
  | .union hasNone opts, .un sel v =>
    UInt8.ofNat sel :: (if hasNone && sel == 0 then [] else serializeOpt opts (optIndex hasNone sel) v)
  | _, _ => []
def serializeFields : List Ty → List Val → List (Bool × List UInt8)
  | t :: ts, v :: vs => (isFixed t, serialize t v) :: serializeFields ts vs
  | _, _ => []
def serializeOpt : List Ty → Nat → Val → List UInt8
  | [], _, _ => []
  | t :: _, 0, v => serialize t v
  | _ :: ts, k+1, v => serializeOpt ts k v
end

/-! ### merkleization (simple-serialize.md "Merkleization") -/

/-- one layer: hash adjacent pairs (the list has even length in the naive definition). -/
def layerNaive (H : Hash) : List Chunk → List Chunk
  | a :: b :: rest => H a b :: layerNaive H rest
  | _ => []

/-- `merkleize(chunks, limit)` as the text says: pad with zero chunks to `2^depth`, then reduce. -/
def merkleizeNaive (H : Hash) (chunks : List Chunk) (depth : Nat) : Chunk :=
  let padded := chunks ++ List.replicate (2^depth - chunks.length) zeroChunk
  ((List.range depth).foldl (fun l _ => layerNaive H l) padded).headD zeroChunk

/-- one layer with virtual padding: an odd tail is paired with the zero hash of this layer. -/
def layer (H : Hash) (z : Chunk) : List Chunk → List Chunk
  | a :: b :: rest => H a b :: layer H z rest
  | [a] => [H a z]
  | [] => []

/-- efficient, executable merkleize: `depth - k` layers remain, `k` is the current layer height. -/
def merkleizeAux (H : Hash) : Nat → Nat → List Chunk → Chunk
  | k, 0, cs => cs.headD (zeroHash H k)
  | k, d+1, cs => merkleizeAux H (k+1) d (layer H (zeroHash H k) cs)

def merkleize (H : Hash) (chunks : List Chunk) (depth : Nat) : Chunk := merkleizeAux H 0 depth chunks

/-- `mix_in_length` / `mix_in_selector` -/
def mixIn (H : Hash) (root : Chunk) (n : Nat) : Chunk := H root (toLE 32 n)

/-- `pack`: serialise basic values, concatenate, right-pad to a multiple of 32, split -/
def pack (bytes : List UInt8) : List Chunk := bytesToChunks bytes

/-- `chunk_count(type)` -/
def chunkCount : Ty → Nat
  | .uint _ => 1
  | .bool => 1
  | .bitvector n => (n + 255) / 256
  | .bitlist lim => (lim + 255) / 256
  | .bytevector n => (n + 31) / 32
  | .bytelist lim => (lim + 31) / 32
  | .vector t n => if t.isBasic then (n * t.basicSize + 31) / 32 else n
  | .list t lim => if t.isBasic then (lim * t.basicSize + 31) / 32 else lim
  | .container fs => fs.length
  | .union _ _ => 1

/-- depth of the smallest power-of-two tree with at least `n` (and at least one) bottom positions -/
def depthFor (n : Nat) : Nat := getDepth n

mutual
def htr (H : Hash) : Ty → Val → Chunk
  | .uint nb, .num n => padRight (toLE nb n) 32
  | .bool, .num n => padRight [UInt8.ofNat n] 32
  | .bitvector n, .bits bs => merkleize H (pack (bitsToBytes bs)) (depthFor ((n + 255) / 256))
  | .bitlist lim, .bits bs =>
    mixIn H (merkleize H (pack (bitsToBytes bs)) (depthFor ((lim + 255) / 256))) bs.length
  | .bytevector n, .bytes bs => merkleize H (pack bs) (depthFor ((n + 31) / 32))
  | .bytelist lim, .bytes bs => mixIn H (merkleize H (pack bs) (depthFor ((lim + 31) / 32))) bs.length
  | .vector t n, .seq vs =>
    if t.isBasic then
      merkleize H (pack (vs.flatMap fun v => serialize t v)) (depthFor ((n * t.basicSize + 31) / 32))
    else merkleize H (vs.map fun v => htr H t v) (depthFor n)
  | .list t lim, .seq vs =>
    if t.isBasic then
      mixIn H (merkleize H (pack (vs.flatMap fun v => serialize t v))
        (depthFor ((lim * t.basicSize + 31) / 32))) vs.length
    else mixIn H (merkleize H (vs.map fun v => htr H t v) (depthFor lim)) vs.length
  | .container fs, .seq vs => merkleize H (htrFields H fs vs) (depthFor fs.length)
  | .union hasNone opts, .un sel v =>
    mixIn H (if hasNone && sel == 0 then zeroChunk else htrOpt H opts (optIndex hasNone sel) v) sel
  | _, _ => zeroChunk
def htrFields (H : Hash) : List Ty → List Val → List Chunk
  | t :: ts, v :: vs => htr H t v :: htrFields H ts vs
  | _, _ => []
def htrOpt (H : Hash) : List Ty → Nat → Val → Chunk
  | [], _, _ => zeroChunk
  | t :: _, 0, v => htr H t v
  | _ :: ts, k+1, v => htrOpt H ts k v
end

/-! ### zero values ("Default values") -/

mutual
def zeroVal : Ty → Val
  | .uint _ => .num 0
  | .bool => .num 0
  | .bitvector n => .bits (List.replicate n false)
  | .bitlist _ => .bits []
  | .bytevector n => .bytes (zeros n)
  | .bytelist _ => .bytes []
  | .vector t n => .seq (List.replicate n (zeroVal t))
  | .list _ _ => .seq []
  | .container fs => .seq (zeroVals fs)
  | .union true _ => .un 0 .none
  | .union false opts => .un 0 (zeroValHead opts)
def zeroVals : List Ty → List Val
  | [] => []
  | t :: ts => zeroVal t :: zeroVals ts
def zeroValHead : List Ty → Val
  | [] => .none
  | t :: _ => zeroVal t
end

/-! ### size bounds implied by the serialization rules -/

mutual
def minLen : Ty → Nat
  | .uint nb => nb
  | .bool => 1
  | .bitvector n => (n + 7) / 8
  | .bitlist _ => 1
  | .bytevector n => n
  | .bytelist _ => 0
  | .vector t n => n * partLen (isFixed t) (minLen t)
  | .list _ _ => 0
  | .container fs => minLenSum fs
  | .union hasNone opts => 1 + (if hasNone then 0 else minLenMin opts)
def minLenSum : List Ty → Nat
  | [] => 0
  | t :: ts => partLen (isFixed t) (minLen t) + minLenSum ts
/-- minimum over a non-empty option list (0 for the empty list) -/
def minLenMin : List Ty → Nat
  | [] => 0
  | [t] => minLen t
  | t :: ts => min (minLen t) (minLenMin ts)
end

mutual
def maxLen : Ty → Nat
  | .uint nb => nb
  | .bool => 1
  | .bitvector n => (n + 7) / 8
  | .bitlist lim => lim / 8 + 1
  | .bytevector n => n
  | .bytelist lim => lim
  | .vector t n => n * partLen (isFixed t) (maxLen t)
  | .list t lim => lim * partLen (isFixed t) (maxLen t)
  | .container fs => maxLenSum fs
  | .union _ opts => 1 + maxLenMax opts
def maxLenSum : List Ty → Nat
  | [] => 0
  | t :: ts => partLen (isFixed t) (maxLen t) + maxLenSum ts
def maxLenMax : List Ty → Nat
  | [] => 0
  | t :: ts => max (maxLen t) (maxLenMax ts)
end

/-! ### generalized indices (merkle-proofs.md) -/

/-- `get_power_of_two_ceil` -/
def pow2ceil (n : Nat) : Nat := 2 ^ getDepth n

/-- type of option `sel` of a union (`none` = the None option or out of range) -/
def optType (hasNone : Bool) (opts : List Ty) (sel : Nat) : Option Ty :=
  if hasNone && sel == 0 then none else opts[optIndex hasNone sel]?

/-- One step of `get_generalized_index`: from `(root, typ)` and a key to the new root and the
    addressed type (`none` type = a basic chunk / None option with no further navigation).
    `root * base_index * pow2ceil(chunk_count) + pos`, `__len__` / `__selector__` = `root*2+1`,
    union value = `root*2`. -/
def gindexStep (root : Nat) (t : Ty) (k : Key) : Option (Nat × Option Ty) :=
  match t, k with
  | .list et lim, .idx i =>
    if i < lim then
      let pos := if et.isBasic then i * et.basicSize / 32 else i
      some (root * 2 * pow2ceil (chunkCount (.list et lim)) + pos, some et)
    else none
  | .list _ _, .len => some (root * 2 + 1, some (.uint 32))
  | .vector et n, .idx i =>
    if i < n then
      let pos := if et.isBasic then i * et.basicSize / 32 else i
      some (root * pow2ceil (chunkCount (.vector et n)) + pos, some et)
    else none
  | .container fs, .idx i =>
    match fs[i]? with
    | some ft => some (root * pow2ceil fs.length + i, some ft)
    | none => none
  | .bitlist lim, .idx i =>
    if i < lim then some (root * 2 * pow2ceil ((lim + 255) / 256) + i / 256, some .bool) else none
  | .bitlist _, .len => some (root * 2 + 1, some (.uint 32))
  | .bitvector n, .idx i =>
    if i < n then some (root * pow2ceil ((n + 255) / 256) + i / 256, some .bool) else none
  | .bytelist lim, .idx i =>
    if i < lim then some (root * 2 * pow2ceil ((lim + 31) / 32) + i / 32, some (.uint 1)) else none
  | .bytelist _, .len => some (root * 2 + 1, some (.uint 32))
  | .bytevector n, .idx i =>
    if i < n then some (root * pow2ceil ((n + 31) / 32) + i / 32, some (.uint 1)) else none
  | .union hasNone opts, .idx i =>
    if i < optCount hasNone opts then some (root * 2, optType hasNone opts i) else none
  | .union _ _, .sel => some (root * 2 + 1, some (.uint 32))
  | _, _ => none

/-- `get_generalized_index(typ, *path)` -/
def gindex : Nat → Option Ty → List Key → Option Nat
  | root, _, [] => some root
  | _, none, _ :: _ => none
  | root, some t, k :: ks =>
    match gindexStep root t k with
    | none => none
    | some (r, t') => gindex r t' ks

end Rmk.Spec
