#!/usr/bin/env python3
"""development aid: summarise the archived mutant sweep logs (seeded/logs/*.log) into seeded/RESULTS.md"""
import os, re, json, collections
os.chdir('/verif/seeded')
rows = collections.OrderedDict()
logs = sorted(os.listdir('logs'))
for lg in logs:
    for line in open('logs/' + lg):
        m = re.match(r'(C\d\d[A-V]) (CAUGHT\(no-input\)|CAUGHT|MISSED|NEUTRALISED)', line)
        if not m:
            continue
        f = re.search(r'findings (\d+)', line)
        rows.setdefault(m.group(1), {})[lg] = m.group(2) + ('' if not f or m.group(2) != 'CAUGHT' else ':%s' % f.group(1))
out = ['# Seeded changes: which check catches what', '',
       'Each change is applied to a scratch worktree (never to /repo) and the QUICK check of its own property is run '
       '(`tools/try_mutants.sh`). CAUGHT = `VIOLATION property=<id> replay=<file>` with a concrete failing input (number of failing '
       'cases after the colon); CAUGHT(no-input) = reported as `no-failing-input-found` (a correspondence stream broke, the search found '
       'no input on which the property itself fails); NEUTRALISED = no longer a property-breaking change after the D14 repair.', '',
       'Logs (in `seeded/logs/`, in chronological order of the harness versions):', '']
desc = {
 'rounds12_seed0_before_round3.log': 'rounds 1+2 (A–D), seed 0, harness as of the end of round 2 (79 of 80; C02D was then re-weighted)',
 'round3_first_run_seed0.log': 'round 3 (E, F) FIRST RUN against the harness that had never seen them: 25 of 40',
 'round4_first_run_seed0.log': 'round 4 (G, H) FIRST RUN against the harness that had never seen them: 24 of 40 (2 of them without a failing input)',
 'all160_seed0.log': 'all 160, seed 0, harness after the round-4 extensions',
 'round5_first_run_seed0.log': 'round 5 (I, J) FIRST RUN against the harness that had never seen them: 25 of 40 (1 of them without a failing input)',
 'all200_seed0.log': 'all 200, seed 0, harness after the round-5 extensions',
 'round6_first_run_seed0.log': 'round 6 (K, L) FIRST RUN against the harness that had never seen them: 20 of 40 (2 of them without a failing input)',
 'all240_seed0.log': 'all 240, seed 0, harness after the round-6 extensions',
 'all240_seed1_final.log': 'all 240, seed 1, harness as of the start of round 7',
 'all240_seed2_final.log': 'all 240, seed 2, harness as of the start of round 7',
 'round7_first_run_seed0.log': 'round 7 (M, N) FIRST RUN against the harness that had never seen them: 26 of 40',
 'round11_first_run_seed0.log': 'round 11 (U, V; twelve properties) FIRST RUN against the harness that had never seen them: 15 of 24',
 'round12_first_run_seed0.log': 'round 12 (U, V; the other eight properties) FIRST RUN against the harness that had never seen them: 11 of 16',
 'all440_seed0.log': 'all 440, seed 0, harness after the round-12 extensions (scratch worktrees of /repo before the D19 repair)',
 'all424_seed0.log': 'all 424, seed 0, harness as of the end of round 11',
 'all424_seed1.log': 'all 424, seed 1 (the seed `vp check` uses), final harness',
 'round10_first_run_seed0.log': 'round 10 (S, T) FIRST RUN against the harness that had never seen them: 31 of 40',
 'all400_seed0.log': 'all 400, seed 0, final harness',
 'all400_seed1.log': 'all 400, seed 1 (the seed `vp check` uses), final harness',
 'round9_first_run_seed0.log': 'round 9 (Q, R) FIRST RUN against the harness that had never seen them: 30 of 40',
 'all360_seed0.log': 'all 360, seed 0, harness after the round-9 extensions',
 'all360_seed1.log': 'all 360, seed 1 (the seed `vp check` uses), same harness',
 'round8_first_run_seed0.log': 'round 8 (O, P) FIRST RUN against the harness that had never seen them: 23 of 40',
 'all320_seed0.log': 'all 320, seed 0, harness after the round-8 extensions (and the D17 / D18 repairs)',
 'all320_seed1.log': 'all 320, seed 1 (the seed `vp check` uses), same harness',
 'all280_seed0.log': 'all 280, seed 0, harness after the round-7 extensions',
 'all280_seed1.log': 'all 280, seed 1 (the seed `vp check` uses), same harness',
 'all240_seed1.log': 'all 240, seed 1 (the seed `vp check` uses), same harness',
 'all200_seed1.log': 'all 200, seed 1 (the seed `vp check` uses), same harness',
 'all160_seed1.log': 'all 160, seed 1 (the seed `vp check` uses), same harness',
}
for lg in logs:
    c = collections.Counter(v.get(lg, '').split(':')[0] for v in rows.values() if lg in v)
    d = desc.get(lg, 'rounds 1–3 (A–F), that seed, harness after the round-3 extensions' if lg.startswith('rounds123') else '')
    out.append('* `%s` — %s: %s' % (lg, d, ', '.join('%s %d' % kv for kv in sorted(c.items()))))
out += ['', 'Every MISSED entry of the multi-seed sweeps was traced to a trigger the generators reached too rarely, the generator was '
        're-weighted, and the change was re-run with the seed in question (and others) until caught; the three MISSED entries of the '
        'all160 sweeps (C01C seed 0, C15G seed 1, C18G seed 1) were re-run after the re-weighting: caught with seeds 0 and 1 '
        '(48/52, 12/109, 73/82 failing cases); the four MISSED entries of the all200 sweeps (C06A seed 0, C04D / C06I / C10C seed 1) likewise: '
        'caught with seeds 0-3 after the re-weighting (store histories on packed lists with zero tails and on bit vectors, unions '
        'listing one type at several selectors, gap edits of container encodings); the four MISSED entries of the all240 sweeps '
        '(C06H / C14A seed 0, C02L / C17I seed 1) likewise: caught with seeds 0-2 (C06H: 0-3) after more lazy store histories on packed '
        'lists, more byte-like constructor cases, a handful of shared container class names, and union value writes on partial trees; '
        'the MISSED entries of the all280 / all320 sweeps (C02M, C10M, C08O seed 1; C06M seed 0) likewise: caught with seeds 0-3 after '
        'byte-sized elements filling exactly one / two chunks became fixed cases, the later-offset table was enlarged, paths through '
        'container types that print alike were added to the C08 check and root unions with a snapshot and a copy to the store checks; '
        'the MISSED entries of the all360 / all400 sweeps (C01O, C10Q, C12Q seed 1; C03O, C12R seed 0; C14O, C16S, C19T seed 1) likewise: '
        'caught with seeds 0-2 after every kind of same-content family became a fixed case, sequences of empty variable-size elements '
        'with every later offset edited, default vectors of composite elements at every small length, families of alike types as value '
        'cases, element types with equal default roots used one after the other, changes to another selector with an invalid value, bit '
        'fields 1..7 bits short of a chunk boundary and None-selected unions were added as fixed cases, and the hash counter was extended '
        'to hashes made through `settings.merkle_hash` by modules other than tree.py; the two MISSED entries of the all424 sweeps (C17I, C17Q seed 0) '
        'likewise: caught with seeds 0-2 after the union-value-on-partial-tree histories were doubled and the read-only iterator was stopped '
        'exactly before a summarised PAIR of chunks (summarising a single chunk, a leaf already, changes nothing).', '',
        '| change | file(s) touched | ' + ' | '.join(l.replace('.log', '').replace('rounds123_', 'r123 ').replace('_', ' ') for l in logs) + ' |',
        '|---|---|' + '---|' * len(logs)]
for mid, v in rows.items():
    files = ''
    try:
        files = ' '.join(sorted({l[6:].strip().replace('remerkleable/', '') for l in open('%s/patch.diff' % mid) if l.startswith('+++ b/')}))
    except Exception:
        pass
    out.append('| %s | %s | ' % (mid, files) + ' | '.join(v.get(l, '') for l in logs) + ' |')
open('RESULTS.md', 'w').write('\n'.join(out) + '\n')
print(len(rows), 'changes')
