#!/usr/bin/env python3
"""development aid: store validated sub-agent mutants of one round under seeded/.
usage: store_round.py <worktree-prefix> <validation-log-prefix> <round> <letterA> <letterB> <pid>..."""
import json, os, shutil, sys
pre, logpre, rnd, la, lb = sys.argv[1:6]
props = {json.loads(l)['id']: json.loads(l) for l in open('/verif/properties.jsonl')}
for pid in sys.argv[6:]:
    for m, n in (('A', la), ('B', lb)):
        src = pre + pid
        if not os.path.exists('%s/mutant_%s.patch' % (src, m)):
            continue
        log = [l.strip() for l in open(logpre + pid + '.log') if l.startswith(pid + m)]
        if not log or 'demo_clean=0 demo_mutant=1 tests: 14748 passed' not in log[0]:
            print('NOT VALID', pid, m, log)
            continue
        d = '/verif/seeded/%s%s' % (pid, n)
        os.makedirs(d, exist_ok=True)
        shutil.copy('%s/mutant_%s.patch' % (src, m), d + '/patch.diff')
        shutil.copy('%s/demo_%s.py' % (src, m), d + '/demo.py')
        shutil.copy('%s/notes_%s.md' % (src, m), d + '/notes.md')
        meta = {"id": pid + n, "breaks_property": pid, "title": props[pid].get('title', ''), "round": int(rnd),
                "needs_to_manifest": "see notes.md (written by the independent sub-agent that produced the change)",
                "confirmed_by": "tools/validate_mutants.sh in the scratch worktree %s: patch applies on the clean tree; demo.py exits 0 without and 1 with the change; the pinned suite passes with the change" % src,
                "validation_log": log[0],
                "source": "fresh sub-agent given only the property text and its own scratch worktree"}
        json.dump(meta, open(d + '/meta.json', 'w'), indent=1)
        print('stored', pid + n)
