#!/bin/sh
# development aid: apply each mutant patch of /tmp/wt_<pid> to /repo, run the quick check, undo.
# usage: tools/try_mutants.sh C04 C05 ...
cd /verif || exit 2
for pid in "$@"; do
  for m in A B; do
    f=/tmp/wt_$pid/mutant_$m.patch
    [ -f "$f" ] || f=/verif/seeded/$pid$m/patch.diff
    [ -f "$f" ] || continue
    if ! git -C /repo apply "$f" 2>/dev/null; then echo "$pid $m: patch does not apply"; continue; fi
    out=$(RMK_SKIP_PROOF=1 ./check $pid quick 2>&1 | tail -3 | tr '\n' ' ')
    git -C /repo checkout -- .
    echo "$pid $m: $out"
  done
done
