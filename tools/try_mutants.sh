#!/bin/sh
# development aid: run the quick check of each property against every seeded change of that property,
# applied to a scratch worktree of /repo (RMK_REPO points the harness at it; /repo itself is never touched).
# usage: tools/try_mutants.sh C04 C05 ...      (no arguments: all seeded changes)
cd /verif || exit 2
wt=${WT:-/tmp/rmk_mut_wt}
[ $# -eq 0 ] && set -- $(ls seeded | sed 's/[A-V]$//' | sort -u)
git -C /repo worktree remove --force $wt 2>/dev/null
git -C /repo worktree add -q --detach $wt HEAD || exit 2
for pid in "$@"; do
  for m in ${VARIANTS:-A B C D E F G H I J K L M N O P Q R S T U V}; do
    f=/verif/seeded/$pid$m/patch.diff
    [ -f "$f" ] || continue
    if grep -q '"status": "neutralised"' /verif/seeded/$pid$m/meta.json 2>/dev/null; then echo "$pid$m NEUTRALISED (see meta.json)"; continue; fi
    git -C $wt checkout -q -- . 
    if ! git -C $wt apply "$f" 2>/dev/null; then echo "$pid$m: patch does not apply"; continue; fi
    out=$(env RMK_REPO=$wt ${EXTRA_ENV:-} ./check $pid quick 2>&1 | tail -3 | tr '\n' ' ')
    case "$out" in *VIOLATION*no-failing-input-found*) r="CAUGHT(no-input)";; *VIOLATION*) r=CAUGHT;; *) r=MISSED;; esac
    echo "$pid$m $r :: $out"
  done
done
git -C /repo worktree remove --force $wt
