#!/bin/sh
# development aid: confirm each sub-agent mutant in its own scratch worktree:
# patch applies, suite passes with it, demo fails with it and passes without it.
# usage: validate_mutants.sh <worktree-prefix> <pid>     e.g. /tmp/wt2_ C04
pre=$1; pid=$2
wt=$pre$pid
cd $wt || exit 2
for m in A B; do
  [ -f mutant_$m.patch ] || continue
  git checkout -q -- remerkleable
  /venv/bin/python demo_$m.py >/dev/null 2>&1; clean=$?
  git apply mutant_$m.patch || { echo "$pid$m apply-failed"; continue; }
  /venv/bin/python demo_$m.py >/dev/null 2>&1; mut=$?
  t=$(/venv/bin/python -m pytest -q -p no:cacheprovider -x 2>&1 | tail -1)
  git checkout -q -- remerkleable
  echo "$pid$m demo_clean=$clean demo_mutant=$mut tests: $t"
done
